/-
  Lemmas about the invalidation registry as a data structure (`Cachelito/Registry.lean`):
  the three association tables, the callback tables, the abstract "history" view of a registry
  (registrations since the last `clear`), and the link to the abstraction used by `Cachelito/System.lean`.

  Everything lives in `namespace Cachelito.RegLemmas`.  Property theorems: `Cachelito/Props/C12r.lean`.
-/
import Cachelito.Registry
import Cachelito.Lemmas.System

set_option linter.unusedSectionVars false
set_option linter.unusedSimpArgs false
set_option linter.unusedVariables false

namespace Cachelito.RegLemmas
open Cachelito Cachelito.Registry Cachelito.SysLemmas

/-! ### the abstract view of an operation history -/

/-- effect of one operation on "registrations since the last `clear`" -/
def regsStep (acc : List (String × Meta)) : Registry.Op → List (String × Meta)
  | .register n m => acc ++ [(n, m)]
  | .clear => []
  | _ => acc

/-- effect of one operation on "clear-callback registrations since the last `clear`" -/
def cbsStep (acc : List (String × Nat)) : Registry.Op → List (String × Nat)
  | .registerCallback n id => acc ++ [(n, id)]
  | .clear => []
  | _ => acc

/-- effect of one operation on "conditional-callback registrations since the last `clear`" -/
def condsStep (acc : List (String × Nat)) : Registry.Op → List (String × Nat)
  | .registerCond n id => acc ++ [(n, id)]
  | .clear => []
  | _ => acc

/-- registrations since the last `clear`, oldest first -/
def regsSince (ops : List Registry.Op) : List (String × Meta) := ops.foldl regsStep []
/-- clear-callback registrations since the last `clear`, oldest first -/
def cbsSince (ops : List Registry.Op) : List (String × Nat) := ops.foldl cbsStep []
/-- conditional-callback registrations since the last `clear`, oldest first -/
def condsSince (ops : List Registry.Op) : List (String × Nat) := ops.foldl condsStep []

/-- the value currently registered for `n`: the LAST registration -/
def latest {α : Type} (l : List (String × α)) (n : String) : Option α :=
  (l.reverse.find? (fun p => p.1 = n)).map (·.2)

/-- the brief's formulation of `regsSince` (inline `match`) is the same function -/
theorem regsSince_eq (ops : List Registry.Op) :
    regsSince ops = ops.foldl (fun acc op => match op with
      | .register n m => acc ++ [(n, m)] | .clear => [] | _ => acc) [] := by
  rfl

theorem cbsSince_eq (ops : List Registry.Op) :
    cbsSince ops = ops.foldl (fun acc op => match op with
      | .registerCallback n id => acc ++ [(n, id)] | .clear => [] | _ => acc) [] := by
  rfl

theorem condsSince_eq (ops : List Registry.Op) :
    condsSince ops = ops.foldl (fun acc op => match op with
      | .registerCond n id => acc ++ [(n, id)] | .clear => [] | _ => acc) [] := by
  rfl

/-! ### `latest` -/

theorem latest_nil {α : Type} (n : String) : latest ([] : List (String × α)) n = none := rfl

theorem latest_append_one {α : Type} (l : List (String × α)) (k : String) (v : α) (n : String) :
    latest (l ++ [(k, v)]) n = if k = n then some v else latest l n := by
  unfold latest
  simp only [List.reverse_append, List.reverse_cons, List.reverse_nil, List.nil_append, List.singleton_append,
    List.find?_cons]
  by_cases h : k = n <;> simp [h]

theorem mem_of_latest {α : Type} {l : List (String × α)} {n : String} {v : α} (h : latest l n = some v) :
    (n, v) ∈ l := by
  unfold latest at h
  cases hf : l.reverse.find? (fun p => p.1 = n) with
  | none => rw [hf] at h; cases h
  | some p =>
    rw [hf] at h
    have h1 := List.find?_some hf
    have h2 := List.mem_of_find?_eq_some hf
    simp only [Option.map_some, Option.some.injEq] at h
    simp only [decide_eq_true_eq] at h1
    obtain ⟨a, b⟩ := p
    simp only at h h1
    subst h h1
    exact List.mem_reverse.mp h2

theorem latest_isSome_iff {α : Type} (l : List (String × α)) (n : String) :
    (latest l n).isSome = true ↔ ∃ v, (n, v) ∈ l := by
  constructor
  · intro h
    cases hl : latest l n with
    | none => rw [hl] at h; cases h
    | some v => exact ⟨v, mem_of_latest hl⟩
  · rintro ⟨v, hv⟩
    unfold latest
    rw [Option.isSome_map, List.find?_isSome]
    exact ⟨(n, v), List.mem_reverse.mpr hv, by simp⟩

theorem latest_eq_none_iff {α : Type} (l : List (String × α)) (n : String) :
    latest l n = none ↔ ∀ v, (n, v) ∉ l := by
  constructor
  · intro h v hv
    have := (latest_isSome_iff l n).mpr ⟨v, hv⟩
    rw [h] at this; cases this
  · intro h
    cases hl : latest l n with
    | none => rfl
    | some v => exact absurd (mem_of_latest hl) (h v)

/-- if all registrations of `n` carry the same value, "latest" is just membership -/
theorem latest_eq_some_iff_of_functional {α : Type} {l : List (String × α)} {n : String}
    (hf : ∀ a b, (n, a) ∈ l → (n, b) ∈ l → a = b) (v : α) :
    latest l n = some v ↔ (n, v) ∈ l := by
  constructor
  · exact mem_of_latest
  · intro hv
    cases hl : latest l n with
    | none => exact absurd hv ((latest_eq_none_iff l n).mp hl v)
    | some w => rw [hf w v (mem_of_latest hl) hv]

/-! ### `getKey` / `setKey` (`HashMap::insert`, `HashMap::get`) -/

theorem getKey_nil {α : Type} (k : String) : getKey ([] : List (String × α)) k = none := rfl

theorem getKey_cons {α : Type} (k' : String) (v' : α) (t : List (String × α)) (k : String) :
    getKey ((k', v') :: t) k = if k' = k then some v' else getKey t k := by
  unfold getKey
  simp only [List.find?_cons]
  by_cases h : k' = k <;> simp [h]

theorem getKey_setKey {α : Type} (l : List (String × α)) (k : String) (v : α) (k' : String) :
    getKey (setKey l k v) k' = if k = k' then some v else getKey l k' := by
  induction l with
  | nil => simp [setKey, getKey_cons, getKey_nil]
  | cons p t ih =>
    obtain ⟨k0, v0⟩ := p
    simp only [setKey]
    by_cases h0 : k0 = k
    · subst h0
      simp only [if_true, getKey_cons]
      by_cases h1 : k0 = k' <;> simp [h1]
    · simp only [h0, if_false, getKey_cons, ih]
      by_cases h1 : k0 = k'
      · subst h1; simp [h0, Ne.symm h0]
      · simp [h1]

theorem keys_setKey {α : Type} (l : List (String × α)) (k : String) (v : α) :
    (setKey l k v).map (·.1) = if k ∈ l.map (·.1) then l.map (·.1) else l.map (·.1) ++ [k] := by
  induction l with
  | nil => simp [setKey]
  | cons p t ih =>
    obtain ⟨k0, v0⟩ := p
    simp only [setKey]
    by_cases h0 : k0 = k
    · subst h0; simp
    · simp only [h0, if_false, List.map_cons, ih, List.mem_cons, Ne.symm h0, false_or]
      by_cases h1 : k ∈ t.map (·.1) <;> simp [h1]

theorem keys_nodup_setKey {α : Type} {l : List (String × α)} (h : (l.map (·.1)).Nodup) (k : String) (v : α) :
    ((setKey l k v).map (·.1)).Nodup := by
  rw [keys_setKey]
  by_cases h1 : k ∈ l.map (·.1)
  · simp only [h1, if_true]; exact h
  · simp only [h1, if_false]
    rw [List.nodup_append]
    refine ⟨h, by simp, ?_⟩
    intro a ha b hb
    simp only [List.mem_singleton] at hb
    subst hb
    intro hab; subst hab; exact h1 ha

theorem mem_keys_iff_getKey {α : Type} (l : List (String × α)) (k : String) :
    k ∈ l.map (·.1) ↔ (getKey l k).isSome = true := by
  unfold getKey
  rw [Option.isSome_map, List.find?_isSome]
  simp only [List.mem_map, decide_eq_true_eq]

/-- with pairwise distinct keys, looking up the key of every stored pair returns that pair's value -/
theorem map_getKey_of_nodup {α : Type} {l : List (String × α)} (h : (l.map (·.1)).Nodup) :
    (l.map (·.1)).map (getKey l) = (l.map (·.2)).map some := by
  induction l with
  | nil => rfl
  | cons p t ih =>
    obtain ⟨k0, v0⟩ := p
    simp only [List.map_cons, List.nodup_cons] at h
    simp only [List.map_cons, getKey_cons, if_true, List.cons.injEq, true_and]
    rw [← ih h.2]
    simp only [List.map_map]
    apply List.map_congr_left
    intro q hq
    have : k0 ≠ q.1 := by
      intro he; apply h.1; rw [he]; exact List.mem_map.mpr ⟨q, hq, rfl⟩
    simp [getKey_cons, this]

/-- with pairwise distinct keys, a stored pair is what a lookup of its key returns -/
theorem getKey_of_mem {α : Type} {l : List (String × α)} (h : (l.map (·.1)).Nodup) {n : String} {v : α}
    (hm : (n, v) ∈ l) : getKey l n = some v := by
  induction l with
  | nil => cases hm
  | cons p t ih =>
    obtain ⟨k0, v0⟩ := p
    simp only [List.map_cons, List.nodup_cons] at h
    rw [getKey_cons]
    rcases List.mem_cons.mp hm with heq | hmem
    · cases heq; simp
    · have : k0 ≠ n := by
        intro he; apply h.1; rw [he]; exact List.mem_map.mpr ⟨(n, v), hmem, rfl⟩
      rw [if_neg this]; exact ih h.2 hmem

/-! ### the association tables (`HashMap<String, HashSet<String>>`) -/

theorem get_nil (k : String) : Table.get [] k = [] := rfl

theorem get_cons (k' : String) (ns : List String) (t : Table) (k : String) :
    Table.get ((k', ns) :: t) k = if k' = k then ns else Table.get t k := by
  unfold Table.get
  simp only [List.find?_cons]
  by_cases h : k' = k <;> simp [h]

/-- `entry(k).or_insert_with(HashSet::new).insert(name)` seen through `get` -/
theorem get_add (t : Table) (k name k' : String) :
    (t.add k name).get k' =
      if k = k' then (if (t.get k).contains name then t.get k else t.get k ++ [name]) else t.get k' := by
  induction t with
  | nil =>
    simp only [Table.add, get_cons, get_nil]
    by_cases h : k = k' <;> simp [h]
  | cons p t ih =>
    obtain ⟨k0, ns⟩ := p
    simp only [Table.add]
    by_cases h0 : k0 = k
    · subst h0
      simp only [if_true, get_cons]
      by_cases h1 : k0 = k' <;> simp [h1]
    · simp only [h0, if_false, get_cons, ih]
      by_cases h1 : k0 = k'
      · subst h1; simp [Ne.symm h0]
      · simp [h1]

theorem mem_get_add (t : Table) (k name k' n : String) :
    n ∈ (t.add k name).get k' ↔ n ∈ t.get k' ∨ (k = k' ∧ n = name) := by
  rw [get_add]
  by_cases h : k = k'
  · subst h
    simp only [if_true, true_and]
    by_cases hc : (t.get k).contains name = true
    · rw [if_pos hc]
      constructor
      · exact Or.inl
      · rintro (h | h)
        · exact h
        · subst h; simpa using hc
    · rw [if_neg hc]; simp only [List.mem_append, List.mem_singleton]
  · simp [h]

theorem nodup_get_add (t : Table) (k name k' : String) (h : ∀ k, (t.get k).Nodup) :
    ((t.add k name).get k').Nodup := by
  rw [get_add]
  by_cases hk : k = k'
  · subst hk
    simp only [if_true]
    by_cases hc : (t.get k).contains name = true
    · rw [if_pos hc]; exact h k
    · rw [if_neg hc]
      rw [List.nodup_append]
      refine ⟨h k, by simp, ?_⟩
      intro a ha b hb
      simp only [List.mem_singleton] at hb
      subst hb
      intro hab; subst hab
      exact hc (by simpa using ha)
  · simp only [hk, if_false]; exact h k'

theorem mem_get_addAll (ks : List String) (t : Table) (name k' n : String) :
    n ∈ (t.addAll ks name).get k' ↔ n ∈ t.get k' ∨ (k' ∈ ks ∧ n = name) := by
  unfold Table.addAll
  induction ks generalizing t with
  | nil => simp
  | cons k ks ih =>
    simp only [List.foldl_cons, ih, mem_get_add, List.mem_cons]
    constructor
    · rintro ((h | ⟨h1, h2⟩) | ⟨h1, h2⟩)
      · exact Or.inl h
      · exact Or.inr ⟨Or.inl h1.symm, h2⟩
      · exact Or.inr ⟨Or.inr h1, h2⟩
    · rintro (h | ⟨h1 | h1, h2⟩)
      · exact Or.inl (Or.inl h)
      · exact Or.inl (Or.inr ⟨h1.symm, h2⟩)
      · exact Or.inr ⟨h1, h2⟩

theorem nodup_get_addAll (ks : List String) (t : Table) (name : String) (h : ∀ k, (t.get k).Nodup) :
    ∀ k', ((t.addAll ks name).get k').Nodup := by
  unfold Table.addAll
  induction ks generalizing t with
  | nil => simpa using h
  | cons k ks ih =>
    simp only [List.foldl_cons]
    exact ih _ (fun k' => nodup_get_add t k name k' h)


/-! ### the representation invariant: tables = abstract history view -/

/-- `r` stores exactly what the history view (`regs`, `cbs`, `conds`) says -/
structure Rel (r : Reg) (regs : List (String × Meta)) (cbs conds : List (String × Nat)) : Prop where
  tags_mem : ∀ t n, n ∈ r.tags.get t ↔ ∃ m, (n, m) ∈ regs ∧ t ∈ m.tags
  events_mem : ∀ t n, n ∈ r.events.get t ↔ ∃ m, (n, m) ∈ regs ∧ t ∈ m.events
  deps_mem : ∀ t n, n ∈ r.deps.get t ↔ ∃ m, (n, m) ∈ regs ∧ t ∈ m.deps
  tags_nodup : ∀ t, (r.tags.get t).Nodup
  events_nodup : ∀ t, (r.events.get t).Nodup
  deps_nodup : ∀ t, (r.deps.get t).Nodup
  metas_eq : ∀ n, getKey r.metas n = latest regs n
  clearCb_eq : ∀ n, getKey r.clearCb n = latest cbs n
  condCb_eq : ∀ n, getKey r.condCb n = latest conds n
  metas_keys : (r.metas.map (·.1)).Nodup
  clearCb_keys : (r.clearCb.map (·.1)).Nodup
  condCb_keys : (r.condCb.map (·.1)).Nodup

theorem rel_init : Rel {} [] [] [] where
  tags_mem := by intro t n; simp [get_nil]
  events_mem := by intro t n; simp [get_nil]
  deps_mem := by intro t n; simp [get_nil]
  tags_nodup := by intro t; simp [get_nil]
  events_nodup := by intro t; simp [get_nil]
  deps_nodup := by intro t; simp [get_nil]
  metas_eq := by intro n; rfl
  clearCb_eq := by intro n; rfl
  condCb_eq := by intro n; rfl
  metas_keys := by simp
  clearCb_keys := by simp
  condCb_keys := by simp

theorem mem_step_aux {regs : List (String × Meta)} {name : String} {m : Meta} (sel : Meta → List String)
    (n t : String) :
    ((∃ m', (n, m') ∈ regs ∧ t ∈ sel m') ∨ (t ∈ sel m ∧ n = name)) ↔
      ∃ m', (n, m') ∈ regs ++ [(name, m)] ∧ t ∈ sel m' := by
  constructor
  · rintro (⟨m', h1, h2⟩ | ⟨h1, h2⟩)
    · exact ⟨m', List.mem_append_left _ h1, h2⟩
    · subst h2; exact ⟨m, by simp, h1⟩
  · rintro ⟨m', h1, h2⟩
    rcases List.mem_append.mp h1 with h | h
    · exact Or.inl ⟨m', h, h2⟩
    · simp only [List.mem_singleton, Prod.mk.injEq] at h
      obtain ⟨rfl, rfl⟩ := h
      exact Or.inr ⟨h2, rfl⟩

theorem rel_register {r : Reg} {regs cbs conds} (h : Rel r regs cbs conds) (name : String) (m : Meta) :
    Rel (Registry.step r (.register name m)).1 (regs ++ [(name, m)]) cbs conds where
  tags_mem := by
    intro t n
    simp only [Registry.step, mem_get_addAll, h.tags_mem]
    exact mem_step_aux (·.tags) n t
  events_mem := by
    intro t n
    simp only [Registry.step, mem_get_addAll, h.events_mem]
    exact mem_step_aux (·.events) n t
  deps_mem := by
    intro t n
    simp only [Registry.step, mem_get_addAll, h.deps_mem]
    exact mem_step_aux (·.deps) n t
  tags_nodup := nodup_get_addAll _ _ _ h.tags_nodup
  events_nodup := nodup_get_addAll _ _ _ h.events_nodup
  deps_nodup := nodup_get_addAll _ _ _ h.deps_nodup
  metas_eq := by
    intro n
    simp only [Registry.step, getKey_setKey, latest_append_one, h.metas_eq]
  clearCb_eq := h.clearCb_eq
  condCb_eq := h.condCb_eq
  metas_keys := keys_nodup_setKey h.metas_keys _ _
  clearCb_keys := h.clearCb_keys
  condCb_keys := h.condCb_keys

theorem rel_registerCallback {r : Reg} {regs cbs conds} (h : Rel r regs cbs conds) (name : String) (id : Nat) :
    Rel (Registry.step r (.registerCallback name id)).1 regs (cbs ++ [(name, id)]) conds :=
  { h with
    clearCb_eq := by
      intro n
      simp only [Registry.step, getKey_setKey, latest_append_one, h.clearCb_eq]
    clearCb_keys := keys_nodup_setKey h.clearCb_keys _ _ }

theorem rel_registerCond {r : Reg} {regs cbs conds} (h : Rel r regs cbs conds) (name : String) (id : Nat) :
    Rel (Registry.step r (.registerCond name id)).1 regs cbs (conds ++ [(name, id)]) :=
  { h with
    condCb_eq := by
      intro n
      simp only [Registry.step, getKey_setKey, latest_append_one, h.condCb_eq]
    condCb_keys := keys_nodup_setKey h.condCb_keys _ _ }

/-- the operations that only read the registry -/
def isQuery : Registry.Op → Bool
  | .register _ _ => false
  | .registerCallback _ _ => false
  | .registerCond _ _ => false
  | .clear => false
  | _ => true

theorem step_query (r : Reg) {op : Registry.Op} (h : isQuery op = true) : (Registry.step r op).1 = r := by
  cases op <;> simp only [isQuery, Bool.false_eq_true] at h <;> simp only [Registry.step]
  · split <;> rfl
  · split <;> rfl

theorem regsStep_query (acc : List (String × Meta)) {op : Registry.Op} (h : isQuery op = true) :
    regsStep acc op = acc := by
  cases op <;> simp only [isQuery, Bool.false_eq_true] at h <;> rfl

theorem cbsStep_query (acc : List (String × Nat)) {op : Registry.Op} (h : isQuery op = true) :
    cbsStep acc op = acc := by
  cases op <;> simp only [isQuery, Bool.false_eq_true] at h <;> rfl

theorem condsStep_query (acc : List (String × Nat)) {op : Registry.Op} (h : isQuery op = true) :
    condsStep acc op = acc := by
  cases op <;> simp only [isQuery, Bool.false_eq_true] at h <;> rfl

theorem rel_step {r : Reg} {regs cbs conds} (h : Rel r regs cbs conds) (op : Registry.Op) :
    Rel (Registry.step r op).1 (regsStep regs op) (cbsStep cbs op) (condsStep conds op) := by
  by_cases hq : isQuery op = true
  · rw [step_query r hq, regsStep_query _ hq, cbsStep_query _ hq, condsStep_query _ hq]; exact h
  · cases op <;> simp only [isQuery, not_true_eq_false] at hq
    · exact rel_register h _ _
    · exact rel_registerCallback h _ _
    · exact rel_registerCond h _ _
    · exact rel_init

theorem rel_foldl (ops : List Registry.Op) {r : Reg} {regs cbs conds} (h : Rel r regs cbs conds) :
    Rel (runState r ops) (ops.foldl regsStep regs) (ops.foldl cbsStep cbs) (ops.foldl condsStep conds) := by
  induction ops generalizing r regs cbs conds with
  | nil => exact h
  | cons op ops ih => exact ih (rel_step h op)

/-- **representation theorem**: after any history from the empty registry the tables hold exactly the
    history view -/
theorem rel_run (ops : List Registry.Op) :
    Rel (runState {} ops) (regsSince ops) (cbsSince ops) (condsSince ops) :=
  rel_foldl ops rel_init


/-! ### generic list facts -/

theorem length_filterMap_eq {α β : Type} (f : α → Option β) (l : List α) :
    (l.filterMap f).length = (l.filter (fun a => (f a).isSome)).length := by
  induction l with
  | nil => rfl
  | cons a l ih =>
    cases h : f a with
    | none => simp [List.filterMap_cons, List.filter_cons, h, ih]
    | some b => simp [List.filterMap_cons, List.filter_cons, h, ih]

theorem nodup_filterMap_of_inj {α β : Type} (f : α → Option β) {l : List α} (hn : l.Nodup)
    (hinj : ∀ a, a ∈ l → ∀ b, b ∈ l → ∀ c, f a = some c → f b = some c → a = b) :
    (l.filterMap f).Nodup := by
  induction l with
  | nil => simp
  | cons a l ih =>
    rw [List.nodup_cons] at hn
    have ih' := ih hn.2 (fun x hx y hy c h1 h2 =>
      hinj x (List.mem_cons_of_mem _ hx) y (List.mem_cons_of_mem _ hy) c h1 h2)
    cases h : f a with
    | none => rw [List.filterMap_cons, h]; exact ih'
    | some c =>
      rw [List.filterMap_cons, h]
      simp only
      rw [List.nodup_cons]
      refine ⟨?_, ih'⟩
      intro hc
      obtain ⟨b, hb, hfb⟩ := List.mem_filterMap.mp hc
      have := hinj a (List.mem_cons_self) b (List.mem_cons_of_mem _ hb) c h hfb
      subst this
      exact hn.1 hb

theorem filterMap_eq_of_map_eq_some {α β : Type} (f : α → Option β) :
    ∀ (l : List α) (l' : List β), l.map f = l'.map some → l.filterMap f = l'
  | [], [], _ => rfl
  | [], _ :: _, h => by cases h
  | _ :: _, [], h => by cases h
  | a :: l, b :: l', h => by
    simp only [List.map_cons, List.cons.injEq] at h
    rw [List.filterMap_cons, h.1]
    simp only [List.cons.injEq, true_and]
    exact filterMap_eq_of_map_eq_some f l l' h.2

theorem filterMap_congr' {α β : Type} {f g : α → Option β} {l : List α} (h : ∀ a, a ∈ l → f a = g a) :
    l.filterMap f = l.filterMap g := by
  induction l with
  | nil => rfl
  | cons a l ih =>
    rw [List.filterMap_cons, List.filterMap_cons, h a (by simp),
      ih (fun b hb => h b (List.mem_cons_of_mem _ hb))]

theorem eq_singleton_of_nodup {α : Type} {l : List α} {a : α} (hn : l.Nodup) (ha : a ∈ l)
    (hall : ∀ b, b ∈ l → b = a) : l = [a] := by
  match l, hn, ha, hall with
  | [x], _, ha, _ => simp only [List.mem_singleton] at ha; rw [ha]
  | x :: y :: t, hn, _, hall =>
    have hx := hall x (by simp)
    have hy := hall y (by simp)
    rw [List.nodup_cons] at hn
    exact absurd (by rw [hx, hy]; simp) hn.1

theorem length_eq_of_nodup_of_mem_iff {α : Type} {l₁ l₂ : List α} (h₁ : l₁.Nodup) (h₂ : l₂.Nodup)
    (h : ∀ a, a ∈ l₁ ↔ a ∈ l₂) : l₁.length = l₂.length :=
  ((List.perm_ext_iff_of_nodup h₁ h₂).mpr h).length_eq

/-! ### what the requests compute, in terms of the history view -/

theorem run_fst (r : Reg) (ops : List Registry.Op) : (Registry.run r ops).1 = runState r ops := by
  induction ops generalizing r with
  | nil => rfl
  | cons op ops ih =>
    simp only [Registry.run, runState, List.foldl_cons]
    exact ih _

theorem invokeAll_eq (ops : List Registry.Op) (names : List String) :
    invokeAll (runState {} ops) names = names.filterMap (latest (cbsSince ops)) := by
  unfold invokeAll
  apply filterMap_congr'
  intro n _
  exact (rel_run ops).clearCb_eq n

/-- the callbacks run for a set of names that is characterised by a property `P` of the registered metadata -/
theorem invoke_exact (ops : List Registry.Op) (names : List String) (P : Meta → Prop)
    (hn : ∀ n, n ∈ names ↔ ∃ m, (n, m) ∈ regsSince ops ∧ P m) :
    (∀ id, id ∈ invokeAll (runState {} ops) names ↔
        ∃ n m, (n, m) ∈ regsSince ops ∧ P m ∧ latest (cbsSince ops) n = some id) ∧
    (invokeAll (runState {} ops) names).length =
        (names.filter (fun n => (latest (cbsSince ops) n).isSome)).length := by
  rw [invokeAll_eq]
  refine ⟨?_, length_filterMap_eq _ _⟩
  intro id
  rw [List.mem_filterMap]
  constructor
  · rintro ⟨n, h1, h2⟩
    obtain ⟨m, h3, h4⟩ := (hn n).mp h1
    exact ⟨n, m, h3, h4, h2⟩
  · rintro ⟨n, m, h3, h4, h2⟩
    exact ⟨n, (hn n).mpr ⟨m, h3, h4⟩, h2⟩

theorem allWith_names (ops : List Registry.Op) :
    let r := runState {} ops
    (r.condCb.map (·.1)).Nodup ∧
    (∀ n, n ∈ r.condCb.map (·.1) ↔ ∃ id, (n, id) ∈ condsSince ops) ∧
    (r.condCb.map (·.1)).map (latest (condsSince ops)) = (r.condCb.map (·.2)).map some := by
  intro r
  have h := rel_run ops
  refine ⟨h.condCb_keys, ?_, ?_⟩
  · intro n
    rw [mem_keys_iff_getKey, h.condCb_eq, latest_isSome_iff]
  · rw [← map_getKey_of_nodup h.condCb_keys]
    apply List.map_congr_left
    intro n _
    exact (h.condCb_eq n).symm

/-! ### requests never change the state -/

theorem runState_append (r : Reg) (a b : List Registry.Op) :
    runState r (a ++ b) = runState (runState r a) b := by
  unfold runState; rw [List.foldl_append]

theorem runState_queries (r : Reg) (qs : List Registry.Op) (h : ∀ q, q ∈ qs → isQuery q = true) :
    runState r qs = r := by
  induction qs generalizing r with
  | nil => rfl
  | cons q qs ih =>
    simp only [runState, List.foldl_cons]
    rw [step_query r (h q (by simp))]
    exact ih r (fun q' hq' => h q' (List.mem_cons_of_mem _ hq'))

theorem runState_filter (r : Reg) (ops : List Registry.Op) :
    runState r ops = runState r (ops.filter (fun op => !isQuery op)) := by
  induction ops generalizing r with
  | nil => rfl
  | cons op ops ih =>
    by_cases hq : isQuery op = true
    · simp only [List.filter_cons, hq, Bool.not_true, Bool.false_eq_true, if_false]
      simp only [runState, List.foldl_cons]
      rw [step_query r hq]; exact ih r
    · simp only [List.filter_cons, hq, Bool.not_eq_true', if_true]
      simp only [Bool.not_eq_true] at hq
      simp only [hq, Bool.not_false, if_true, runState, List.foldl_cons]
      exact ih _

/-! ### the registration history the macros produce -/

/-- the metadata a cached function registers -/
def metaOf (s : FnSpec) : Meta := ⟨s.tags, s.events, s.deps⟩

/-- registrations in first-call order (`called` is newest-first); thread-scope functions and indices that
    name no function register nothing -/
def macroOps (fns : List FnSpec) (called : List Nat) : List Registry.Op :=
  called.reverse.flatMap (fun i => match fns[i]? with
    | some s => if s.threadScope then [] else firstCallOps i s.name (metaOf s)
    | none => [])

/-- pairwise distinct cache names -/
def DistinctNames (fns : List FnSpec) : Prop :=
  ∀ (i j : Nat) (a b : FnSpec), fns[i]? = some a → fns[j]? = some b → a.name = b.name → i = j

theorem distinctNames_of_nodup {fns : List FnSpec} (h : (fns.map (·.name)).Nodup) : DistinctNames fns :=
  fun _ _ _ _ hi hj hab => index_unique_of_name h hi hj hab

theorem hasMeta_iff (s : FnSpec) :
    ¬ (((metaOf s).tags.isEmpty && (metaOf s).events.isEmpty && (metaOf s).deps.isEmpty) = true) ↔ HasMeta s := by
  simp only [metaOf, Bool.and_eq_true, List.isEmpty_iff, HasMeta, Classical.not_and_iff_not_or_not, or_assoc,
    ne_eq]

theorem mem_firstCallOps (op : Registry.Op) (i : Nat) (s : FnSpec) :
    op ∈ firstCallOps i s.name (metaOf s) ↔
      (HasMeta s ∧ (op = .register s.name (metaOf s) ∨ op = .registerCallback s.name i)) ∨
        op = .registerCond s.name i := by
  unfold firstCallOps
  rw [List.mem_append, List.mem_singleton]
  by_cases h : ((metaOf s).tags.isEmpty && (metaOf s).events.isEmpty && (metaOf s).deps.isEmpty) = true
  · have h' : ¬ HasMeta s := fun hm => (hasMeta_iff s).mpr hm h
    rw [if_pos h]; simp [h']
  · have h' : HasMeta s := (hasMeta_iff s).mp h
    rw [if_neg h]; simp [h']

theorem mem_macroOps (fns : List FnSpec) (called : List Nat) (op : Registry.Op) :
    op ∈ macroOps fns called ↔
      ∃ i s, i ∈ called ∧ fns[i]? = some s ∧ s.threadScope = false ∧ op ∈ firstCallOps i s.name (metaOf s) := by
  unfold macroOps
  rw [List.mem_flatMap]
  constructor
  · rintro ⟨i, hi, hop⟩
    cases hs : fns[i]? with
    | none => rw [hs] at hop; simp at hop
    | some s =>
      rw [hs] at hop
      simp only at hop
      cases hts : s.threadScope with
      | true => rw [hts] at hop; simp at hop
      | false =>
        rw [hts] at hop
        exact ⟨i, s, List.mem_reverse.mp hi, hs, hts, by simpa using hop⟩
  · rintro ⟨i, s, hi, hs, hts, hop⟩
    refine ⟨i, List.mem_reverse.mpr hi, ?_⟩
    rw [hs]; simp only [hts]; simpa using hop

theorem macroOps_no_clear (fns : List FnSpec) (called : List Nat) : Registry.Op.clear ∉ macroOps fns called := by
  intro h
  obtain ⟨i, s, _, _, _, hop⟩ := (mem_macroOps fns called _).mp h
  rw [mem_firstCallOps] at hop
  rcases hop with ⟨_, h | h⟩ | h <;> cases h

/-! ### history views of clear-free histories are just the registrations that occur -/

theorem mem_foldl_regsStep (ops : List Registry.Op) (hc : Registry.Op.clear ∉ ops) (acc : List (String × Meta))
    (n : String) (m : Meta) :
    (n, m) ∈ ops.foldl regsStep acc ↔ (n, m) ∈ acc ∨ Registry.Op.register n m ∈ ops := by
  induction ops generalizing acc with
  | nil => simp
  | cons op ops ih =>
    have hc' : Registry.Op.clear ∉ ops := fun h => hc (List.mem_cons_of_mem _ h)
    rw [List.foldl_cons, ih hc']
    cases op with
    | clear => exact absurd (List.mem_cons_self) hc
    | register n' m' => simp [regsStep, or_assoc]
    | _ => simp [regsStep]


theorem mem_foldl_cbsStep (ops : List Registry.Op) (hc : Registry.Op.clear ∉ ops) (acc : List (String × Nat))
    (n : String) (id : Nat) :
    (n, id) ∈ ops.foldl cbsStep acc ↔ (n, id) ∈ acc ∨ Registry.Op.registerCallback n id ∈ ops := by
  induction ops generalizing acc with
  | nil => simp
  | cons op ops ih =>
    have hc' : Registry.Op.clear ∉ ops := fun h => hc (List.mem_cons_of_mem _ h)
    rw [List.foldl_cons, ih hc']
    cases op with
    | clear => exact absurd (List.mem_cons_self) hc
    | registerCallback n' m' => simp [cbsStep, or_assoc]
    | _ => simp [cbsStep]

theorem mem_foldl_condsStep (ops : List Registry.Op) (hc : Registry.Op.clear ∉ ops) (acc : List (String × Nat))
    (n : String) (id : Nat) :
    (n, id) ∈ ops.foldl condsStep acc ↔ (n, id) ∈ acc ∨ Registry.Op.registerCond n id ∈ ops := by
  induction ops generalizing acc with
  | nil => simp
  | cons op ops ih =>
    have hc' : Registry.Op.clear ∉ ops := fun h => hc (List.mem_cons_of_mem _ h)
    rw [List.foldl_cons, ih hc']
    cases op with
    | clear => exact absurd (List.mem_cons_self) hc
    | registerCond n' m' => simp [condsStep, or_assoc]
    | _ => simp [condsStep]

/-! ### the history views of the macro-generated history -/

variable {K V : Type} [DecidableEq K]

/-- a metadata registration is present exactly for the called, existing, non-thread-scope functions that
    declare metadata -/
theorem mem_regs_macro (fns : List FnSpec) (called : List Nat) (n : String) (m : Meta) :
    (n, m) ∈ regsSince (macroOps fns called) ↔
      ∃ i s, i ∈ called ∧ fns[i]? = some s ∧ s.threadScope = false ∧ HasMeta s ∧ n = s.name ∧ m = metaOf s := by
  unfold regsSince
  rw [mem_foldl_regsStep _ (macroOps_no_clear fns called), mem_macroOps]
  simp only [List.not_mem_nil, false_or, mem_firstCallOps]
  constructor
  · rintro ⟨i, s, h1, h2, h3, h4⟩
    rcases h4 with ⟨hm, h | h⟩ | h
    · cases h; exact ⟨i, s, h1, h2, h3, hm, rfl, rfl⟩
    · cases h
    · cases h
  · rintro ⟨i, s, h1, h2, h3, hm, rfl, rfl⟩
    exact ⟨i, s, h1, h2, h3, Or.inl ⟨hm, Or.inl rfl⟩⟩

theorem mem_cbs_macro (fns : List FnSpec) (called : List Nat) (n : String) (i : Nat) :
    (n, i) ∈ cbsSince (macroOps fns called) ↔
      ∃ s, i ∈ called ∧ fns[i]? = some s ∧ s.threadScope = false ∧ HasMeta s ∧ n = s.name := by
  unfold cbsSince
  rw [mem_foldl_cbsStep _ (macroOps_no_clear fns called), mem_macroOps]
  simp only [List.not_mem_nil, false_or, mem_firstCallOps]
  constructor
  · rintro ⟨j, s, h1, h2, h3, h4⟩
    rcases h4 with ⟨hm, h | h⟩ | h
    · cases h
    · cases h; exact ⟨s, h1, h2, h3, hm, rfl⟩
    · cases h
  · rintro ⟨s, h1, h2, h3, hm, rfl⟩
    exact ⟨i, s, h1, h2, h3, Or.inl ⟨hm, Or.inr rfl⟩⟩

theorem mem_conds_macro (fns : List FnSpec) (called : List Nat) (n : String) (i : Nat) :
    (n, i) ∈ condsSince (macroOps fns called) ↔
      ∃ s, i ∈ called ∧ fns[i]? = some s ∧ s.threadScope = false ∧ n = s.name := by
  unfold condsSince
  rw [mem_foldl_condsStep _ (macroOps_no_clear fns called), mem_macroOps]
  simp only [List.not_mem_nil, false_or, mem_firstCallOps]
  constructor
  · rintro ⟨j, s, h1, h2, h3, h4⟩
    rcases h4 with ⟨hm, h | h⟩ | h
    · cases h
    · cases h
    · cases h; exact ⟨s, h1, h2, h3, rfl⟩
  · rintro ⟨s, h1, h2, h3, rfl⟩
    exact ⟨i, s, h1, h2, h3, Or.inr rfl⟩

/-- with distinct names the macro history registers each name with ONE callback identifier, so the latest
    clear callback of `n` is `i` exactly when function `i` is called, non-thread-scope, declares metadata and is
    named `n` -/
theorem latest_cbs_macro {fns : List FnSpec} (hd : DistinctNames fns) (called : List Nat) (n : String) (i : Nat) :
    latest (cbsSince (macroOps fns called)) n = some i ↔
      ∃ s, i ∈ called ∧ fns[i]? = some s ∧ s.threadScope = false ∧ HasMeta s ∧ n = s.name := by
  rw [latest_eq_some_iff_of_functional, mem_cbs_macro]
  intro a b ha hb
  obtain ⟨sa, _, h2, _, _, h5⟩ := (mem_cbs_macro fns called n a).mp ha
  obtain ⟨sb, _, h2', _, _, h5'⟩ := (mem_cbs_macro fns called n b).mp hb
  exact hd a b sa sb h2 h2' (h5.symm.trans h5')

theorem latest_conds_macro {fns : List FnSpec} (hd : DistinctNames fns) (called : List Nat) (n : String) (i : Nat) :
    latest (condsSince (macroOps fns called)) n = some i ↔
      ∃ s, i ∈ called ∧ fns[i]? = some s ∧ s.threadScope = false ∧ n = s.name := by
  rw [latest_eq_some_iff_of_functional, mem_conds_macro]
  intro a b ha hb
  obtain ⟨sa, _, h2, _, h5⟩ := (mem_conds_macro fns called n a).mp ha
  obtain ⟨sb, _, h2', _, h5'⟩ := (mem_conds_macro fns called n b).mp hb
  exact hd a b sa sb h2 h2' (h5.symm.trans h5')

/-- **the abstraction of `System` is what the tables compute** (generic form): a callback identifier is
    selected by "some registration of its name satisfies `P`" exactly when it is a `clearTargets` element for
    the selector `sel` that reads the same property off the function's attributes -/
theorem targets_iff {fns : List FnSpec} (hd : DistinctNames fns) (sys : Sys K V)
    (P : Meta → Prop) (sel : FnSpec → Bool) (hsel : ∀ s, sel s = true ↔ P (metaOf s)) (i : Nat) :
    (∃ n m, (n, m) ∈ regsSince (macroOps fns sys.called) ∧ P m ∧
        latest (cbsSince (macroOps fns sys.called)) n = some i) ↔
      i ∈ clearTargets fns sys sel := by
  rw [mem_clearTargets]
  unfold IsTarget
  constructor
  · rintro ⟨n, m, h1, h2, h3⟩
    obtain ⟨j, sj, _, hj, _, _, hn, hm⟩ := (mem_regs_macro fns sys.called n m).mp h1
    obtain ⟨s, g1, g2, g3, g4, g5⟩ := (latest_cbs_macro hd sys.called n i).mp h3
    have hij : i = j := hd i j s sj g2 hj (g5.symm.trans hn)
    subst hij
    have : s = sj := Option.some.inj (g2.symm.trans hj)
    subst this
    subst hm
    exact ⟨s, g2, g3, g1, g4, (hsel s).mpr h2⟩
  · rintro ⟨s, g2, g3, g1, g4, h5⟩
    exact ⟨s.name, metaOf s, (mem_regs_macro fns sys.called _ _).mpr ⟨i, s, g1, g2, g3, g4, rfl, rfl⟩,
      (hsel s).mp h5, (latest_cbs_macro hd sys.called _ i).mpr ⟨s, g1, g2, g3, g4, rfl⟩⟩

/-- the callbacks run by a tag / event / dependency request are pairwise distinct -/
theorem invokeAll_nodup_macro (fns : List FnSpec) (called : List Nat) {names : List String} (hn : names.Nodup) :
    (invokeAll (runState {} (macroOps fns called)) names).Nodup := by
  rw [invokeAll_eq]
  apply nodup_filterMap_of_inj _ hn
  intro a _ b _ c ha hb
  obtain ⟨sa, _, h2, _, _, h5⟩ := (mem_cbs_macro fns called a c).mp (mem_of_latest ha)
  obtain ⟨sb, _, h2', _, _, h5'⟩ := (mem_cbs_macro fns called b c).mp (mem_of_latest hb)
  have : sa = sb := Option.some.inj (h2.symm.trans h2')
  rw [h5, h5', this]

theorem byName_targets {fns : List FnSpec} (hd : DistinctNames fns) (sys : Sys K V) (name : String) (i : Nat) :
    latest (cbsSince (macroOps fns sys.called)) name = some i ↔
      i ∈ clearTargets fns sys (fun spec => spec.name = name) := by
  rw [mem_clearTargets, latest_cbs_macro hd]
  unfold IsTarget
  constructor
  · rintro ⟨s, g1, g2, g3, g4, g5⟩
    exact ⟨s, g2, g3, g1, g4, by simp [g5]⟩
  · rintro ⟨s, g2, g3, g1, g4, g5⟩
    exact ⟨s, g1, g2, g3, g4, by simpa [eq_comm] using g5⟩

theorem withPred_targets {fns : List FnSpec} (hd : DistinctNames fns) (sys : Sys K V) (name : String) (i : Nat) :
    latest (condsSince (macroOps fns sys.called)) name = some i ↔
      i ∈ regTargets fns sys (fun spec => spec.name = name) := by
  rw [mem_regTargets, latest_conds_macro hd]
  unfold IsRegTarget
  constructor
  · rintro ⟨s, g1, g2, g3, g5⟩
    exact ⟨s, g2, g3, g1, by simp [g5]⟩
  · rintro ⟨s, g2, g3, g1, g5⟩
    exact ⟨s, g1, g2, g3, by simpa [eq_comm] using g5⟩

/-- a duplicate-free list all of whose members carry the same name under distinct names has the shape the
    registry reports: `[i]` if `i` is a member, `[]` if nothing is -/
theorem targets_eq_of_latest {l : List Nat} (hn : l.Nodup) {o : Option Nat}
    (h : ∀ i, o = some i ↔ i ∈ l) : l = o.toList := by
  cases o with
  | none =>
    cases l with
    | nil => rfl
    | cons a t => exact absurd ((h a).mpr (by simp)) (by simp)
  | some a =>
    exact eq_singleton_of_nodup hn ((h a).mp rfl) (fun b hb => (Option.some.inj ((h b).mpr hb)).symm)

/-- all conditional callbacks of the macro history: exactly the registered functions, each once -/
theorem allWith_macro {fns : List FnSpec} (hd : DistinctNames fns) (sys : Sys K V) :
    let l := (runState {} (macroOps fns sys.called)).condCb.map (·.2)
    (∀ i, i ∈ l ↔ i ∈ regAll fns sys) ∧ l.Nodup := by
  intro l
  obtain ⟨h1, h2, h3⟩ := allWith_names (macroOps fns sys.called)
  have hl : l = ((runState {} (macroOps fns sys.called)).condCb.map (·.1)).filterMap
      (latest (condsSince (macroOps fns sys.called))) := (filterMap_eq_of_map_eq_some _ _ _ h3).symm
  constructor
  · intro i
    rw [hl, List.mem_filterMap, mem_regAll]
    unfold Registered
    constructor
    · rintro ⟨n, _, hn⟩
      obtain ⟨s, g1, g2, g3, _⟩ := (latest_conds_macro hd sys.called n i).mp hn
      exact ⟨s, g2, g3, g1⟩
    · rintro ⟨s, g2, g3, g1⟩
      have hl := (latest_conds_macro hd sys.called s.name i).mpr ⟨s, g1, g2, g3, rfl⟩
      exact ⟨s.name, (h2 _).mpr ⟨i, mem_of_latest hl⟩, hl⟩
  · rw [hl]
    apply nodup_filterMap_of_inj _ h1
    intro a _ b _ c ha hb
    obtain ⟨sa, _, q2, _, q5⟩ := (mem_conds_macro fns sys.called a c).mp (mem_of_latest ha)
    obtain ⟨sb, _, q2', _, q5'⟩ := (mem_conds_macro fns sys.called b c).mp (mem_of_latest hb)
    have : sa = sb := Option.some.inj (q2.symm.trans q2')
    rw [q5, q5', this]

end Cachelito.RegLemmas
