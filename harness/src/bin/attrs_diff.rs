//! C19 correspondence: the REAL attribute parsers `cachelito_macro_utils::parse_sync_attributes` /
//! `parse_async_attributes` on thousands of generated attribute lists, one line per case for the Lean
//! driver (`driver attrs`), which runs the model parser on the same list and evaluates the monitors.
//!
//! usage: attrs_diff gen <seed> <n_valid> <n_malformed> [--no-overridden]
//!   (`--no-overridden` leaves out the class "invalid value followed by a valid one of the same attribute";
//!    it was needed while the parser silently dropped such values (before commit 82aef8c) and is kept for
//!    compatibility only: the default stream is expected to be clean)
//!
//! Line protocol (fields separated by `|`):
//!
//!   A|<sync|async>|<oc>|<class>|<attrs>|<result>     a well-formed `name = value, …` list
//!   R|<sync|async>|<oc>|<class>|<hex text>|<result>  text that is not a `name = value` list for syn
//!   T|<hex of the return type's token string>|<0|1>   `is_result` as the macros compute it
//!   #STAT …                                          input distribution
//!
//! `oc` = 1 when this build of cachelito-macro-utils panics on `usize` overflow in the max_memory arithmetic
//! (detected at start-up).  Always 0 since commit 1b1b026 (`checked_mul`); the field is kept for compatibility.
//!
//! attrs   = items joined by `;`, each `name=VAL`, VAL one of
//!   I:<+|->:<decimal value>:<suffix>     integer literal (value as syn's base10_digits)
//!   F:<+|->:<mantissa>:<exp10>:<suffix>  float literal denoting mantissa·10^exp10
//!   S:<hex utf-8>                        string literal (unescaped value)
//!   B:<0|1>                              bool literal
//!   C                                    char / byte / byte-string literal
//!   P:<0|1>:<seg>.<seg>…                 path (leading `::` flag)
//!   A:<e>,<e>…                           array, elements `S:<hex>` or `O` (anything else)
//!   X                                    any other expression
//!   A negative literal is `I:-`/`F:-` only as the very last token of the stream (syn's rule), `X` elsewhere.
//!
//! result  = `ERR:<hex msg>` (parser returned Err(compile_error!(msg))) | `PANIC:<hex msg>` |
//!   `OK~limit=<t>~policy=<t>~ttl=<t>~scope=<t|->~name=<s+hex|->~mm=<t>~tags=<s+hex,…>~events=…~deps=…~inv=<t|->~cif=<t|->~fw=<t>~hmm=<0|1>~mmraw=<hex>`
//!   where <t> is the field's token string with all whitespace removed, or `CE:<hex msg>` when the field
//!   holds `compile_error!("msg")` tokens; `hmm` is the macros' `has_max_memory` test on the max_memory
//!   tokens and `mmraw` their `to_string()` (hex).

use proc_macro2::TokenStream as TokenStream2;
use quote::quote;
use std::collections::BTreeMap;
use std::io::Write;
use std::panic::{catch_unwind, AssertUnwindSafe};
use verif_harness::{hex, panic_msg, Rng};

#[derive(Clone, Debug)]
enum Elem {
    Str(String),
    Other(String), // source text
}

#[derive(Clone, Debug)]
enum Val {
    /// text of the literal (without sign), decimal value, suffix
    Int { neg: bool, text: String, value: String, suffix: String },
    /// text (without sign), mantissa digits, exp10, suffix
    Float { neg: bool, text: String, mant: String, exp10: i64, suffix: String },
    Str(String),
    Bool(bool),
    OtherLit(String),
    Path { leading: bool, segs: Vec<String> },
    Array(Vec<Elem>),
    Other(String),
}

type Attr = (String, Val);

fn strip_zeros(s: &str) -> String {
    let t = s.trim_start_matches('0');
    if t.is_empty() {
        "0".to_string()
    } else {
        t.to_string()
    }
}

fn rust_str_lit(s: &str) -> String {
    format!("{:?}", s)
}

impl Val {
    fn text(&self) -> String {
        match self {
            Val::Int { neg, text, suffix, .. } => format!("{}{}{}", if *neg { "-" } else { "" }, text, suffix),
            Val::Float { neg, text, suffix, .. } => format!("{}{}{}", if *neg { "-" } else { "" }, text, suffix),
            Val::Str(s) => rust_str_lit(s),
            Val::Bool(b) => b.to_string(),
            Val::OtherLit(t) => t.clone(),
            Val::Path { leading, segs } => format!("{}{}", if *leading { "::" } else { "" }, segs.join("::")),
            Val::Array(es) => {
                let parts: Vec<String> = es
                    .iter()
                    .map(|e| match e {
                        Elem::Str(s) => rust_str_lit(s),
                        Elem::Other(t) => t.clone(),
                    })
                    .collect();
                format!("[{}]", parts.join(", "))
            }
            Val::Other(t) => t.clone(),
        }
    }
    /// `final_lit`: this value is the last token of the whole stream
    fn enc(&self, final_lit: bool) -> String {
        match self {
            Val::Int { neg, value, suffix, .. } => {
                if *neg && !final_lit {
                    "X".to_string()
                } else {
                    format!("I:{}:{}:{}", if *neg { "-" } else { "+" }, value, suffix)
                }
            }
            Val::Float { neg, mant, exp10, suffix, .. } => {
                if *neg && !final_lit {
                    "X".to_string()
                } else {
                    format!("F:{}:{}:{}:{}", if *neg { "-" } else { "+" }, mant, exp10, suffix)
                }
            }
            Val::Str(s) => format!("S:{}", hex(s)),
            Val::Bool(b) => format!("B:{}", if *b { 1 } else { 0 }),
            Val::OtherLit(_) => "C".to_string(),
            Val::Path { leading, segs } => format!("P:{}:{}", if *leading { 1 } else { 0 }, segs.join(".")),
            Val::Array(es) => {
                let parts: Vec<String> = es
                    .iter()
                    .map(|e| match e {
                        Elem::Str(s) => format!("S:{}", hex(s)),
                        Elem::Other(_) => "O".to_string(),
                    })
                    .collect();
                format!("A:{}", parts.join(","))
            }
            Val::Other(_) => "X".to_string(),
        }
    }
}

// ---------------------------------------------------------------- value generators

fn int_forms(rng: &mut Rng, v: u64) -> (String, String) {
    // (text, suffix)
    let dec = v.to_string();
    let form = rng.below(10);
    let text = match form {
        0 => format!("{:#x}", v),
        1 => format!("{:#o}", v),
        2 => format!("{:#b}", v),
        3 => {
            // underscores
            let mut t = String::new();
            for (i, c) in dec.chars().enumerate() {
                if i > 0 && rng.chance(1, 3) {
                    t.push('_');
                }
                t.push(c);
            }
            t
        }
        4 => format!("{}{}", "0".repeat(1 + rng.below(3) as usize), dec),
        _ => dec.clone(),
    };
    let suffix = if form <= 2 {
        (*rng.pick(&["", "", "usize", "u64"])).to_string()
    } else {
        (*rng.pick(&["", "", "", "", "usize", "u64", "u8", "i32", "u128", "f64", "f32"])).to_string()
    };
    (text, suffix)
}

fn some_u64(rng: &mut Rng) -> u64 {
    match rng.below(10) {
        0 => 0,
        1 => 1,
        2 => u64::MAX,
        3 => u64::MAX - rng.below(5),
        4 => 1u64 << rng.below(64),
        5 => (1u64 << rng.below(64)).wrapping_sub(1),
        6 => rng.next(),
        _ => rng.below(5000),
    }
}

fn int_val(rng: &mut Rng, v: u64) -> Val {
    let (text, suffix) = int_forms(rng, v);
    Val::Int { neg: false, text, value: v.to_string(), suffix }
}

/// an integer literal that does not fit in 64 bits
fn big_int_val(rng: &mut Rng) -> Val {
    let s = match rng.below(4) {
        0 => "18446744073709551616".to_string(),
        1 => "340282366920938463463374607431768211455".to_string(),
        2 => format!("{}{}", 1 + rng.below(9), "0".repeat(20 + rng.below(30) as usize)),
        _ => format!("18446744073709551616{}", rng.below(1000)),
    };
    Val::Int { neg: false, text: s.clone(), value: s, suffix: String::new() }
}

fn neg_int_val(rng: &mut Rng) -> Val {
    let v = *rng.pick(&[0u64, 1, 5, 1000]);
    Val::Int { neg: true, text: v.to_string(), value: v.to_string(), suffix: String::new() }
}

/// float literal from parts
fn float_from(int_digits: &str, frac: Option<&str>, exp: Option<i64>, exp_style: u64, suffix: &str, neg: bool) -> Val {
    let mut text = int_digits.to_string();
    let mut all = int_digits.to_string();
    let mut e10: i64 = 0;
    if let Some(f) = frac {
        text.push('.');
        text.push_str(f);
        all.push_str(f);
        e10 -= f.len() as i64;
    }
    if let Some(e) = exp {
        let es = match exp_style % 4 {
            0 => format!("e{}", e),
            1 => format!("E{}", e),
            2 if e >= 0 => format!("e+{}", e),
            _ => format!("e{}", e),
        };
        text.push_str(&es);
        e10 += e;
    }
    let mant = strip_zeros(&all.replace('_', ""));
    Val::Float { neg, text, mant, exp10: e10, suffix: suffix.to_string() }
}

fn digits(rng: &mut Rng, n: usize, first_nonzero: bool) -> String {
    let mut s = String::new();
    for i in 0..n {
        let d = if i == 0 && first_nonzero { 1 + rng.below(9) } else { rng.below(10) };
        s.push(char::from(b'0' + d as u8));
    }
    s
}

/// a float literal whose value is a positive finite f64
fn pos_float_val(rng: &mut Rng) -> Val {
    let sfx_owned: String = (*rng.pick(&["", "", "", "f64", "f32"])).to_string();
    let sfx = sfx_owned.as_str();
    match rng.below(14) {
        0 => float_from("0", Some("3"), None, 0, sfx, false),
        1 => float_from("1", Some("0"), None, 0, sfx, false),
        2 => float_from("1", Some("5"), None, 0, sfx, false),
        3 => float_from("0", Some("1"), None, 0, sfx, false),
        4 => float_from("1", Some(""), None, 0, "", false), // `1.`
        5 => float_from("1", None, Some(3), rng.next(), sfx, false), // `1e3`
        6 => float_from("4", Some("9"), Some(-324), 0, sfx, false), // min subnormal
        7 => float_from("2", Some("5"), Some(-324), 0, sfx, false), // rounds UP to the min subnormal
        8 => float_from("1", Some("7976931348623157"), Some(308), 0, sfx, false), // f64::MAX
        9 => float_from("0", Some("1000000000000000055511151231257827"), None, 0, sfx, false),
        10 => {
            // many significant digits
            let a = { let n = 1 + rng.below(3) as usize; digits(rng, n, true) };
            let b = { let n = 15 + rng.below(10) as usize; digits(rng, n, false) };
            float_from(&a, Some(&b), None, 0, sfx, false)
        }
        11 => {
            let a = { let n = 1 + rng.below(2) as usize; digits(rng, n, true) };
            let b = { let n = 1 + rng.below(17) as usize; digits(rng, n, false) };
            let e = rng.below(600) as i64 - 300;
            float_from(&a, Some(&b), Some(e), rng.next(), sfx, false)
        }
        12 => {
            // halfway cases between adjacent doubles around 2^53: 9007199254740993 is a tie
            let c = *rng.pick(&["9007199254740993", "9007199254740995", "9007199254740992", "9007199254740994"]);
            float_from(c, Some("0"), None, 0, sfx, false)
        }
        _ => {
            let a = { let n = 1 + rng.below(3) as usize; digits(rng, n, false) };
            let b = { let n = 1 + rng.below(4) as usize; digits(rng, n, false) };
            let v = float_from(&a, Some(&b), None, 0, sfx, false);
            // avoid an all-zero literal here
            if let Val::Float { mant, .. } = &v {
                if mant == "0" {
                    return float_from("0", Some("25"), None, 0, sfx, false);
                }
            }
            v
        }
    }
}

fn rand_string(rng: &mut Rng) -> String {
    let pool = [
        "users", "cache", "a", "", "my cache", "ünï", "with\"quote", "tab\there", "x_y", "UPPER", "None", "日本",
        "a,b", "semi;colon", "pipe|bar", "nl\nline", "user_updated", "db:users", "🙂",
    ];
    if rng.chance(1, 3) {
        let n = 1 + rng.below(8) as usize;
        (0..n).map(|_| char::from(b'a' + rng.below(26) as u8)).collect()
    } else {
        (*rng.pick(&pool)).to_string()
    }
}

fn ident(rng: &mut Rng) -> String {
    let pool = ["is_stale", "should_cache", "check", "pred", "f", "validate", "crate_fn", "x1", "_p"];
    (*rng.pick(&pool)).to_string()
}

fn path_val(rng: &mut Rng) -> Val {
    let n = 1 + rng.below(3) as usize;
    let mut segs: Vec<String> = Vec::new();
    let leading = rng.chance(1, 6);
    if !leading && n > 1 && rng.chance(1, 3) {
        segs.push((*rng.pick(&["crate", "self", "super"])).to_string());
    }
    while segs.len() < n {
        segs.push(ident(rng));
    }
    Val::Path { leading, segs }
}

fn str_array(rng: &mut Rng) -> Val {
    let n = rng.below(5) as usize;
    Val::Array((0..n).map(|_| Elem::Str(rand_string(rng))).collect())
}

fn case_mix(rng: &mut Rng, s: &str) -> String {
    s.chars()
        .map(|c| if rng.chance(1, 2) { c.to_ascii_lowercase() } else { c.to_ascii_uppercase() })
        .collect()
}

/// documented max_memory string forms, value in range
fn valid_mm_string(rng: &mut Rng) -> String {
    let k = rng.below(4); // 0 none, 1 KB, 2 MB, 3 GB
    let unit = ["", "KB", "MB", "GB"][k as usize];
    let max = u64::MAX >> (10 * k);
    let n = match rng.below(6) {
        0 => 0,
        1 => max,
        2 => max - rng.below(3),
        3 => rng.below(max.min(1 << 20).max(1)),
        _ => 1 + rng.below(2048),
    };
    let zeros = if rng.chance(1, 8) { "0".repeat(1 + rng.below(3) as usize) } else { String::new() };
    format!("{}{}{}", zeros, n, case_mix(rng, unit))
}

fn valid_value(rng: &mut Rng, name: &str) -> Val {
    match name {
        "limit" | "ttl" => {
            let v = some_u64(rng);
            int_val(rng, v)
        }
        "policy" => Val::Str((*rng.pick(&["fifo", "lru", "lfu", "arc", "random", "tlru"])).to_string()),
        "scope" => Val::Str((*rng.pick(&["global", "thread"])).to_string()),
        "name" => Val::Str(rand_string(rng)),
        "max_memory" => {
            if rng.chance(3, 4) {
                Val::Str(valid_mm_string(rng))
            } else {
                let v = some_u64(rng);
                int_val(rng, v)
            }
        }
        "tags" | "events" | "dependencies" => str_array(rng),
        "invalidate_on" | "cache_if" => path_val(rng),
        "frequency_weight" => {
            if rng.chance(3, 4) {
                pos_float_val(rng)
            } else {
                let v = some_u64(rng).max(1);
                int_val(rng, v)
            }
        }
        _ => unreachable!(),
    }
}

const SYNC_NAMES: [&str; 12] = [
    "limit", "policy", "ttl", "scope", "name", "max_memory", "tags", "events", "dependencies", "invalidate_on",
    "cache_if", "frequency_weight",
];

fn names_of(is_async: bool) -> Vec<&'static str> {
    SYNC_NAMES.iter().copied().filter(|n| !(is_async && *n == "scope")).collect()
}

fn shuffle<T>(rng: &mut Rng, v: &mut Vec<T>) {
    for i in (1..v.len()).rev() {
        let j = rng.below(i as u64 + 1) as usize;
        v.swap(i, j);
    }
}

fn valid_list(rng: &mut Rng, is_async: bool) -> Vec<Attr> {
    let names = names_of(is_async);
    let mut l: Vec<Attr> = Vec::new();
    // density: empty, sparse, half, full
    let (num, den) = *rng.pick(&[(0u64, 1u64), (1, 6), (1, 2), (1, 2), (1, 2), (5, 6), (1, 1)]);
    for n in &names {
        if rng.chance(num, den) {
            l.push((n.to_string(), valid_value(rng, n)));
        }
    }
    // repeated attributes (still valid: the last one wins)
    if rng.chance(1, 5) {
        let extra = 1 + rng.below(3);
        for _ in 0..extra {
            let n = *rng.pick(&names);
            l.push((n.to_string(), valid_value(rng, n)));
        }
    }
    shuffle(rng, &mut l);
    l
}

// ---------------------------------------------------------------- malformed values

fn wrong_kind_value(rng: &mut Rng, name: &str) -> Val {
    // candidates of every kind; keep those that the attribute does not accept
    loop {
        let v = match rng.below(12) {
            0 => int_val(rng, 3),
            1 => pos_float_val(rng),
            2 => Val::Str(rand_string(rng)),
            3 => Val::Bool(rng.chance(1, 2)),
            4 => Val::OtherLit((*rng.pick(&["'c'", "b'x'", "b\"bytes\""])).to_string()),
            5 => path_val(rng),
            6 => str_array(rng),
            7 => Val::Other((*rng.pick(&["(3)", "f()", "1 + 2", "-x", "|k, v| true", "{ 5 }", "&3", "Some(3)", "3 as usize", "!true", "a.b"])).to_string()),
            8 => neg_int_val(rng),
            9 => Val::Path { leading: false, segs: vec!["None".to_string()] },
            10 => Val::Array(vec![Elem::Str("a".into()), Elem::Other((*rng.pick(&["1", "x", "[\"n\"]", "'c'", "true", "-1"])).to_string())]),
            _ => float_from("1", Some("5"), None, 0, "", true),
        };
        let accepted = match (name, &v) {
            ("limit" | "ttl", Val::Int { neg: false, .. }) => true,
            ("policy" | "scope", Val::Str(s)) => {
                ["fifo", "lru", "lfu", "arc", "random", "tlru", "global", "thread"].contains(&s.as_str())
            }
            ("name", _) => false, // anything but a string is "wrong" for name (and silently ignored)
            ("max_memory", Val::Int { neg: false, .. }) => true,
            ("max_memory", Val::Str(_)) => true, // string forms are exercised separately
            ("tags" | "events" | "dependencies", Val::Array(es)) => es.iter().all(|e| matches!(e, Elem::Str(_))),
            ("invalidate_on" | "cache_if", Val::Path { .. }) => true,
            ("frequency_weight", Val::Int { neg: false, .. }) => true,
            ("frequency_weight", Val::Float { neg: false, .. }) => true,
            _ => false,
        };
        if name == "name" {
            if let Val::Str(_) = v {
                continue;
            }
        }
        if !accepted {
            return v;
        }
    }
}

fn typo(rng: &mut Rng, name: &str) -> String {
    let known = SYNC_NAMES;
    loop {
        let cs: Vec<char> = name.chars().collect();
        let i = rng.below(cs.len() as u64) as usize;
        let t: String = match rng.below(7) {
            0 => cs.iter().enumerate().filter(|(j, _)| *j != i).map(|(_, c)| *c).collect(), // drop
            1 => {
                let mut v = cs.clone();
                v.insert(i, cs[i]);
                v.into_iter().collect()
            } // double
            2 if cs.len() > 1 => {
                let mut v = cs.clone();
                let j = if i + 1 < v.len() { i } else { i - 1 };
                v.swap(j, j + 1);
                v.into_iter().collect()
            } // swap
            3 => name.to_uppercase(),
            4 => {
                let mut v = cs.clone();
                v[0] = v[0].to_ascii_uppercase();
                v.into_iter().collect()
            }
            5 => format!("{}s", name),
            _ => format!("{}_", name),
        };
        if !t.is_empty() && !known.contains(&t.as_str()) && t.chars().next().map_or(false, |c| c.is_ascii_alphabetic() || c == '_') && t != "_" {
            return t;
        }
    }
}

fn lit_str(s: &str) -> Val {
    Val::Str(s.to_string())
}

fn plain_int(s: &str) -> Val {
    Val::Int { neg: false, text: s.to_string(), value: strip_zeros(s), suffix: String::new() }
}

/// (class, name, value) of one malformed attribute
fn malformed_attr(rng: &mut Rng, is_async: bool) -> (String, String, Val) {
    let names = names_of(is_async);
    match rng.below(16) {
        0 => {
            let n = (*rng.pick(&["limits", "size", "capacity", "r#limit", "max_mem", "time_to_live", "memory", "key", "expire", "maxmemory", "invalidateOn", "weight", "r#ttl", "_x", "policy2"])).to_string();
            let base = *rng.pick(&names);
            ("unknown".to_string(), n, valid_value(rng, base))
        }
        1 | 2 => {
            let base = *rng.pick(&names);
            (format!("typo:{}", base), typo(rng, base), valid_value(rng, base))
        }
        3 | 4 | 5 => {
            let n = *rng.pick(&names);
            (format!("kind:{}", n), n.to_string(), wrong_kind_value(rng, n))
        }
        6 => {
            let v = *rng.pick(&["LRU", "Fifo", "mru", "", "lru ", " lru", "clock", "FIFO", "Random", "tlru2", "l", "lru,lfu"]);
            ("policy-set".to_string(), "policy".to_string(), lit_str(v))
        }
        7 => {
            if is_async {
                // async has no scope attribute at all
                ("async-scope".to_string(), "scope".to_string(), lit_str(*rng.pick(&["global", "thread"])))
            } else {
                let v = *rng.pick(&["Global", "local", "thread_local", "process", "", "THREAD", "threads", "thread ", "ThreadLocal"]);
                ("scope-set".to_string(), "scope".to_string(), lit_str(v))
            }
        }
        8 => {
            let v = match rng.below(6) {
                0 => neg_int_val(rng),
                1 => lit_str("3"),
                2 => float_from("1", Some("5"), None, 0, "", false),
                3 => big_int_val(rng),
                4 => Val::Bool(true),
                _ => Val::Path { leading: false, segs: vec!["None".to_string()] },
            };
            ("limit-value".to_string(), "limit".to_string(), v)
        }
        9 => {
            let v = match rng.below(5) {
                0 => neg_int_val(rng),
                1 => lit_str("60"),
                2 => float_from("1", Some("5"), None, 0, "", false),
                3 => big_int_val(rng),
                _ => Val::Other("60 * 60".to_string()),
            };
            ("ttl-value".to_string(), "ttl".to_string(), v)
        }
        10 | 11 => {
            let pool = [
                "12XB", "MB", "1.5MB", " 5MB", "5MB ", "5 MB", "-5", "", "GB", "KB", "B", "5B", "1KBGB", "1GBKB", "1MBKB", "0x10",
                "1_000", "１２", "5ｍb", "5\u{212A}B", "ß", "5TB", "5M", "5G", "5K", "MB5", "5MB5", "five", "+", "++5", "+-5", "+ 5",
                "18446744073709551616", "18014398509481984KB", "17592186044416MB", "17179869184GB", "99999999999999999999GB",
                "99999999999999999999", "1e3", "5mbb", "5mmb", "5 ", "\t5", "5\n", "1,000", "٣", "5kbkB ", "+5MBkb",
            ];
            let v = match rng.below(8) {
                0 => Val::Bool(true),
                1 => float_from("1", Some("5"), None, 0, "", false),
                2 => neg_int_val(rng),
                3 => big_int_val(rng),
                _ => lit_str(*rng.pick(&pool)),
            };
            ("mm-value".to_string(), "max_memory".to_string(), v)
        }
        12 => {
            let v = match rng.below(9) {
                0 => float_from("0", Some("0"), None, 0, "", false),
                1 => float_from("1", Some("0"), None, 0, "", true),
                2 => neg_int_val(rng),
                3 => lit_str("1.0"),
                4 => Val::Bool(true),
                5 => float_from("1", None, Some(400), 0, "", false),
                6 => float_from("1", None, Some(-400), 0, "", false),
                7 => float_from("2", Some("4"), Some(-324), 0, "", false), // rounds to 0.0
                _ => float_from("1", Some("7976931348623159"), Some(308), 0, "", false), // rounds to inf
            };
            ("fw-value".to_string(), "frequency_weight".to_string(), v)
        }
        13 => {
            let v = match rng.below(3) {
                0 => big_int_val(rng),
                1 => float_from("0", None, Some(0), 0, "", false),
                _ => float_from("1", None, Some(400), 0, "", true), // -inf <= 0.0
            };
            ("fw-value".to_string(), "frequency_weight".to_string(), v)
        }
        14 => {
            let n = *rng.pick(&["tags", "events", "dependencies"]);
            let v = match rng.below(5) {
                0 => lit_str("a"),
                1 => Val::Array(vec![Elem::Str("a".into()), Elem::Other("1".into())]),
                2 => Val::Array(vec![Elem::Other("[\"a\"]".into())]),
                3 => Val::Array(vec![Elem::Other("a".into()), Elem::Str("b".into())]),
                _ => plain_int("5"),
            };
            (format!("array:{}", n), n.to_string(), v)
        }
        _ => {
            let n = *rng.pick(&["invalidate_on", "cache_if"]);
            let v = match rng.below(4) {
                0 => lit_str("f"),
                1 => plain_int("5"),
                2 => Val::Other("f()".into()),
                _ => Val::Other("|k, v| true".into()),
            };
            (format!("path:{}", n), n.to_string(), v)
        }
    }
}

/// accepted although outside the documented forms (parser behaviour reproduced by the model, not alarmed)
fn quirk_attr(rng: &mut Rng) -> (String, String, Val) {
    match rng.below(6) {
        0 => {
            let v = *rng.pick(&["+5", "+5MB", "+0", "+12kb", "+18446744073709551615"]);
            ("quirk:mm-plus".to_string(), "max_memory".to_string(), lit_str(v))
        }
        1 => {
            let v = *rng.pick(&["1GBGB", "2kbKB", "3MbmBMB", "7gbGBgbGB"]);
            ("quirk:mm-repeat".to_string(), "max_memory".to_string(), lit_str(v))
        }
        2 => ("quirk:name-nonstring".to_string(), "name".to_string(), wrong_kind_value(rng, "name")),
        3 => ("quirk:fw-int-zero".to_string(), "frequency_weight".to_string(), plain_int("0")),
        4 => ("quirk:fw-int".to_string(), "frequency_weight".to_string(), {
            let v = some_u64(rng);
            int_val(rng, v)
        }),
        _ => ("quirk:limit-zero".to_string(), "limit".to_string(), plain_int("0")),
    }
}

fn insert_at(rng: &mut Rng, l: &mut Vec<Attr>, a: Attr) -> usize {
    let pos = rng.below(l.len() as u64 + 1) as usize;
    l.insert(pos, a);
    pos
}

// ---------------------------------------------------------------- running the real parser

fn squash(ts: &TokenStream2) -> String {
    if let Ok(m) = syn::parse2::<syn::Macro>(ts.clone()) {
        if m.path.is_ident("compile_error") {
            if let Ok(l) = m.parse_body::<syn::LitStr>() {
                return format!("CE:{}", hex(&l.value()));
            }
        }
    }
    ts.to_string().chars().filter(|c| !c.is_whitespace()).collect()
}

fn err_enc(ts: &TokenStream2) -> String {
    let s = squash(ts);
    if let Some(h) = s.strip_prefix("CE:") {
        format!("ERR:{}", h)
    } else {
        format!("ERR?:{}", hex(&s))
    }
}

fn strs(v: &[String]) -> String {
    v.iter().map(|s| format!("s{}", hex(s))).collect::<Vec<_>>().join(",")
}

fn opt_path(p: &Option<syn::Path>) -> String {
    match p {
        Some(p) => squash(&quote! { #p }),
        None => "-".to_string(),
    }
}

fn opt_name(n: &Option<String>) -> String {
    match n {
        Some(s) => format!("s{}", hex(s)),
        None => "-".to_string(),
    }
}

/// the macros' own test (`cachelito-macros/src/lib.rs:93-97`, `cachelito-async-macros/src/lib.rs:22-24`), verbatim
fn has_max_memory(max_memory_expr: &TokenStream2) -> u8 {
    let max_memory_str = max_memory_expr.to_string();
    let has_max_memory = !max_memory_str.contains("None");
    has_max_memory as u8
}

/// the macros' own test (`cachelito-macros/src/lib.rs:622-625`, `cachelito-async-macros/src/lib.rs:273-275`), verbatim
fn is_result(ret_type: &TokenStream2) -> bool {
    let s = quote!(#ret_type).to_string().replace(' ', "");
    s.starts_with("Result<") || s.starts_with("std::result::Result<")
}

fn run_real(is_async: bool, ts: TokenStream2) -> String {
    let r = catch_unwind(AssertUnwindSafe(|| {
        if is_async {
            match cachelito_macro_utils::parse_async_attributes(ts) {
                Ok(a) => format!(
                    "OK~limit={}~policy={}~ttl={}~scope=-~name={}~mm={}~tags={}~events={}~deps={}~inv={}~cif={}~fw={}~hmm={}~mmraw={}",
                    squash(&a.limit),
                    squash(&a.policy),
                    squash(&a.ttl),
                    opt_name(&a.custom_name),
                    squash(&a.max_memory),
                    strs(&a.tags),
                    strs(&a.events),
                    strs(&a.dependencies),
                    opt_path(&a.invalidate_on),
                    opt_path(&a.cache_if),
                    squash(&a.frequency_weight),
                    has_max_memory(&a.max_memory),
                    hex(&a.max_memory.to_string())
                ),
                Err(e) => err_enc(&e),
            }
        } else {
            match cachelito_macro_utils::parse_sync_attributes(ts) {
                Ok(a) => format!(
                    "OK~limit={}~policy={}~ttl={}~scope={}~name={}~mm={}~tags={}~events={}~deps={}~inv={}~cif={}~fw={}~hmm={}~mmraw={}",
                    squash(&a.limit),
                    squash(&a.policy),
                    squash(&a.ttl),
                    squash(&a.scope),
                    opt_name(&a.custom_name),
                    squash(&a.max_memory),
                    strs(&a.tags),
                    strs(&a.events),
                    strs(&a.dependencies),
                    opt_path(&a.invalidate_on),
                    opt_path(&a.cache_if),
                    squash(&a.frequency_weight),
                    has_max_memory(&a.max_memory),
                    hex(&a.max_memory.to_string())
                ),
                Err(e) => err_enc(&e),
            }
        }
    }));
    match r {
        Ok(s) => s,
        Err(e) => format!("PANIC:{}", hex(&panic_msg(e))),
    }
}

fn render(l: &[Attr], trailing_comma: bool, rng: &mut Rng) -> (String, String) {
    let mut text = String::new();
    let mut enc: Vec<String> = Vec::new();
    for (i, (n, v)) in l.iter().enumerate() {
        let last = i + 1 == l.len();
        if i > 0 {
            text.push_str(if rng.chance(1, 8) { " ,\n  " } else { ", " });
        }
        text.push_str(n);
        text.push_str(if rng.chance(1, 10) { "=" } else { " = " });
        text.push_str(&v.text());
        enc.push(format!("{}={}", n, v.enc(last && !trailing_comma)));
    }
    if trailing_comma && !l.is_empty() {
        text.push(',');
    }
    (text, enc.join(";"))
}

struct Stats {
    m: BTreeMap<String, u64>,
}
impl Stats {
    fn bump(&mut self, k: String) {
        *self.m.entry(k).or_insert(0) += 1;
    }
}

fn kind_str(is_async: bool) -> &'static str {
    if is_async {
        "async"
    } else {
        "sync"
    }
}

fn emit(
    out: &mut impl Write,
    stats: &mut Stats,
    rng: &mut Rng,
    oc: u8,
    is_async: bool,
    class: &str,
    l: &[Attr],
) {
    let trailing = rng.chance(1, 4);
    let (text, enc) = render(l, trailing, rng);
    let ts: TokenStream2 = match text.parse() {
        Ok(t) => t,
        Err(e) => {
            writeln!(out, "#GENERATOR-ERROR cannot lex [{}]: {}", text.replace('\n', " "), e).unwrap();
            stats.bump("generator-errors".into());
            return;
        }
    };
    let res = run_real(is_async, ts);
    let outcome = if res.starts_with("OK~") {
        if res.contains("=CE:") {
            "spliced-compile-error"
        } else {
            "accepted"
        }
    } else if res.starts_with("ERR") {
        "parser-err"
    } else {
        "panic"
    };
    stats.bump(format!("class {} {} {}", kind_str(is_async), class, outcome));
    stats.bump(format!("outcome {} {}", kind_str(is_async), outcome));
    for (n, _) in l {
        let shown = if SYNC_NAMES.contains(&n.as_str()) { n.as_str() } else { "(unknown-name)" };
        stats.bump(format!("attr {} {}", kind_str(is_async), shown));
    }
    stats.bump(format!("len {:02}", l.len().min(15)));
    writeln!(out, "A|{}|{}|{}|{}|{}", kind_str(is_async), oc, class, enc, res).unwrap();
}

fn emit_raw(out: &mut impl Write, stats: &mut Stats, oc: u8, is_async: bool, class: &str, text: &str) {
    let ts: TokenStream2 = match text.parse() {
        Ok(t) => t,
        Err(_) => return,
    };
    let res = run_real(is_async, ts);
    stats.bump(format!("class {} {} {}", kind_str(is_async), class, if res.starts_with("ERR") { "parser-err" } else { "other" }));
    writeln!(out, "R|{}|{}|{}|{}|{}", kind_str(is_async), oc, class, hex(text), res).unwrap();
}

fn main() {
    let args: Vec<String> = std::env::args().collect();
    if args.len() < 5 || args[1] != "gen" {
        eprintln!("usage: attrs_diff gen <seed> <n_valid> <n_malformed> [--no-overridden]");
        std::process::exit(2);
    }
    let seed: u64 = args[2].parse().unwrap();
    let n_valid: usize = args[3].parse().unwrap();
    let n_malformed: usize = args[4].parse().unwrap();
    let with_overridden = !args.iter().any(|a| a == "--no-overridden");
    std::panic::set_hook(Box::new(|_| {}));
    let stdout = std::io::stdout();
    let mut out = std::io::BufWriter::new(stdout.lock());
    let mut stats = Stats { m: BTreeMap::new() };

    // does this build panic on usize overflow?
    let oc: u8 = {
        let ts: TokenStream2 = "max_memory = \"17179869184GB\"".parse().unwrap();
        if run_real(false, ts).starts_with("PANIC") {
            1
        } else {
            0
        }
    };
    writeln!(out, "#STAT seed {} n_valid {} n_malformed {} overflow_checks {} overridden_class {}", seed, n_valid, n_malformed, oc, with_overridden).unwrap();

    let mut root = Rng::new(seed);
    let mut rv = root.fork();
    let mut rm = root.fork();

    // fixed cases first: the empty list, the documented examples
    emit(&mut out, &mut stats, &mut rv, oc, false, "valid", &[]);
    emit(&mut out, &mut stats, &mut rv, oc, true, "valid", &[]);

    for _ in 0..n_valid {
        let is_async = rv.chance(1, 2);
        let l = valid_list(&mut rv, is_async);
        emit(&mut out, &mut stats, &mut rv, oc, is_async, "valid", &l);
    }

    for i in 0..n_malformed {
        let is_async = rm.chance(1, 2);
        let mut l = if rm.chance(1, 4) { Vec::new() } else { valid_list(&mut rm, is_async) };
        match rm.below(12) {
            0 | 1 => {
                // tolerated quirks
                let (class, n, v) = quirk_attr(&mut rm);
                insert_at(&mut rm, &mut l, (n, v));
                emit(&mut out, &mut stats, &mut rm, oc, is_async, &class, &l);
            }
            2 if with_overridden => {
                // an invalid limit / ttl / max_memory / frequency_weight value FOLLOWED by a valid occurrence of
                // the same attribute: silently overridden before commit 82aef8c, must be rejected now
                let n = *rm.pick(&["limit", "ttl", "max_memory", "frequency_weight"]);
                let bad = loop {
                    let (_, bn, bv) = malformed_attr(&mut rm, is_async);
                    if bn == n {
                        break bv;
                    }
                };
                l.retain(|(x, _)| x != n);
                let pos = insert_at(&mut rm, &mut l, (n.to_string(), bad));
                let good = valid_value(&mut rm, n);
                let after = pos + 1 + rm.below((l.len() - pos) as u64) as usize;
                l.insert(after, (n.to_string(), good));
                emit(&mut out, &mut stats, &mut rm, oc, is_async, &format!("overridden:{}", n), &l);
            }
            3 => {
                // two malformed attributes: the first fatal one decides
                let (c1, n1, v1) = malformed_attr(&mut rm, is_async);
                let (c2, n2, v2) = malformed_attr(&mut rm, is_async);
                l.retain(|(x, _)| *x != n1 && *x != n2);
                insert_at(&mut rm, &mut l, (n1, v1));
                insert_at(&mut rm, &mut l, (n2, v2));
                let _ = (c1, c2);
                emit(&mut out, &mut stats, &mut rm, oc, is_async, "two-errors", &l);
            }
            4 if i % 3 == 0 => {
                let raws = [
                    "limit", "limit =", "limit 5", "= 5", "limit = 5 ttl = 3", "limit == 5", "limit = 5;", "limit: 5", "limit(5)",
                    "\"limit\" = 5", "limit = 5,, ttl = 3", ", limit = 5", "a::limit = 5", "::limit = 5", "limit = #[x] 5", "5",
                    "_ = 5",
                    "policy", "scope = ", 
                ];
                let t: &str = *rm.pick(&raws[..]);
                emit_raw(&mut out, &mut stats, oc, is_async, "syntax", t);
            }
            _ => {
                let (class, n, v) = malformed_attr(&mut rm, is_async);
                // replace the valid occurrences of that attribute half of the time, so that the malformed
                // value is the effective one
                if rm.chance(1, 2) {
                    l.retain(|(x, _)| *x != n);
                }
                // anywhere in the list, before or after valid occurrences of the same attribute
                insert_at(&mut rm, &mut l, (n.clone(), v));
                emit(&mut out, &mut stats, &mut rm, oc, is_async, &class, &l);
            }
        }
    }

    // return-type spellings for `is_result`
    let mut rt = root.fork();
    let heads = [
        "Result", "std::result::Result", "core::result::Result", "::std::result::Result", "::core::result::Result",
        "io::Result", "std::io::Result", "anyhow::Result", "Res", "MyResult", "ResultSet", "Option", "Vec", "Box",
        "std :: result :: Result", "result::Result", "crate::Result", "self::Result", "fmt::Result",
    ];
    let args = ["i32", "String", "Vec<u8>", "(u8, u8)", "Option<Result<i32, String>>", "&'static str", "Box<dyn std::error::Error>", "[u8; 4]", "std::io::Error"];
    let n_types = (n_valid / 10).max(60);
    for i in 0..n_types {
        let text = if i < 8 {
            ["()", "i32", "Result", "std::result::Result", "(Result<i32, String>, u8)", "Vec<Result<i32, String>>", "&'static str", "impl Iterator<Item = Result<u8, ()>>"][i].to_string()
        } else {
            let h = if rt.chance(1, 3) { *rt.pick(&heads[..2]) } else { *rt.pick(&heads) };
            let n = rt.below(3);
            if n == 0 {
                h.to_string()
            } else {
                let a: Vec<&str> = (0..n).map(|_| *rt.pick(&args)).collect();
                format!("{}<{}>", h, a.join(", "))
            }
        };
        if let Ok(ty) = syn::parse_str::<syn::Type>(&text) {
            let toks = quote! { #ty };
            let r = is_result(&toks);
            stats.bump(format!("is_result {}", r));
            writeln!(out, "T|{}|{}", hex(&toks.to_string()), r as u8).unwrap();
        }
    }

    for (k, v) in &stats.m {
        writeln!(out, "#STAT {} {}", k, v).unwrap();
    }
    out.flush().unwrap();
}
