/-
  C16s — the thread-local `RefCell` discipline checked against the CURRENT SOURCE (translator tie).

  `Cachelito/Generated/BorrowNesting.lean` is regenerated from `thread_local_cache.rs` by
  `checklib/static_scopes.py` on every check of C16: `borrows` lists every statically possible nesting of
  `RefCell` borrows (lexical guard scopes incl. temporaries, plus borrows taken by a called method while the
  caller's borrow is alive).  `RefCell` panics exactly when a cell is borrowed mutably while any borrow of THE SAME
  cell is alive, or borrowed at all while a mutable borrow of it is alive.

  The pre-fix code (F4: LFU/ARC/TLRU eviction re-borrowed the order queue) had the nesting
  `(order, mutable, order, mutable)`; `prefix_conflict_example` shows the checker rejects it.
-/
import Cachelito.Generated.BorrowNesting

namespace Cachelito.C16s
open Cachelito.Generated

/-- two borrows can be alive together iff they are of different cells or both shared -/
def compatible (e : Cell × Bool × Cell × Bool) : Bool :=
  e.1 != e.2.2.1 || (!e.2.1 && !e.2.2.2)

/-- The translator classified every borrow it met. -/
theorem translator_classified_everything : borrowProblems = [] := by decide

/-- The translator saw the borrow sites (non-vacuity). -/
theorem translator_saw_sites : 0 < borrowSites ∧ 0 < borrows.length := by decide

/-- **No borrow in the current source is taken while a conflicting borrow of the same cell is alive**: no
    `BorrowError` / `BorrowMutError` panic is possible on any path of the thread-local engine. -/
theorem no_conflicting_borrow : ∀ e ∈ borrows, compatible e = true := by decide

/-- the nesting of the pre-fix code (F4) is rejected -/
example : compatible (Cell.order, true, Cell.order, true) = false := by decide
/-- a shared re-borrow of the cache cell while a shared borrow is alive would be fine -/
example : compatible (Cell.cache, false, Cell.cache, false) = true := by decide

end Cachelito.C16s
