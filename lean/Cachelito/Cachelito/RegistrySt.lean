/-
  Cachelito.RegistrySt — the state the TRANSLATED `invalidation.rs` works on (`Generated/PureRegistry.lean`): the six
  `RwLock<HashMap<…>>` tables of `InvalidationRegistry`, field names as in the source, with the table types of
  `Cachelito.Registry`.  A callback is the identifier it was registered with.
-/
import Cachelito.Registry
import Cachelito.RustLite

namespace Cachelito.Registry

/-- the Rust field is called `dependencies` -/
def Meta.dependencies (m : Meta) : List String := m.deps

end Cachelito.Registry

namespace Cachelito.RustLite

structure RegistrySt where
  tag_to_caches : Registry.Table := []
  event_to_caches : Registry.Table := []
  dependency_to_caches : Registry.Table := []
  cache_metadata : List (String × Registry.Meta) := []
  clear_callbacks : List (String × Nat) := []
  invalidation_check_callbacks : List (String × Nat) := []

end Cachelito.RustLite
