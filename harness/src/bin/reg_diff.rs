//! C12 / C13 correspondence at the level of the registry data structure: the REAL
//! `cachelito_core::InvalidationRegistry` (a PRIVATE instance, `InvalidationRegistry::default()`) is driven
//! through arbitrary registration histories — registrations in any order, re-registration with other metadata,
//! callbacks replaced, names that share tags / events / dependencies, requests nothing declares, `clear()` — and
//! every operation's result plus the set of callbacks that actually ran is printed for the Lean driver
//! (`driver reg`), which replays the episode on `Cachelito.Registry.run`.
//!
//! usage: reg_diff gen <seed> <episodes>
//!
//!   G|<op>;<op>;…|<out>;<out>;…
//!
//! op / out: see `lean/Cachelito/Cachelito/RegDriver.lean`.  Two generators alternate: `macro-like`
//! (each name registered once: register + callback when it has metadata, conditional callback always — the
//! sequences `#[cache]` / `#[cache_async]` produce, in random order and interleaved with requests) and `free`
//! (anything the public API allows).

use cachelito_core::{InvalidationMetadata, InvalidationRegistry};
use std::io::Write;
use std::sync::{Arc, Mutex};
use verif_harness::Rng;

const NAMES: [&str; 6] = ["n0", "n1", "n2", "n3", "n4", "n5"];
const TAGS: [&str; 4] = ["t0", "t1", "t2", "t3"];
const EVENTS: [&str; 3] = ["e0", "e1", "e2"];
const DEPS: [&str; 3] = ["d0", "d1", "n0"]; // a dependency may be the name of another cache

fn subset(rng: &mut Rng, xs: &[&str], p_num: u64) -> Vec<String> {
    xs.iter().filter(|_| rng.chance(p_num, 10)).map(|s| s.to_string()).collect()
}

fn main() {
    let args: Vec<String> = std::env::args().collect();
    if args.len() < 4 || args[1] != "gen" {
        eprintln!("usage: reg_diff gen <seed> <episodes>");
        std::process::exit(2);
    }
    let seed: u64 = args[2].parse().unwrap();
    let episodes: usize = args[3].parse().unwrap();
    let mut rng = Rng::new(seed);
    let out = std::io::stdout();
    let mut out = out.lock();
    let (mut n_ops, mut n_group, mut n_group_hit, mut n_rereg, mut n_clear, mut n_shared) = (0u64, 0u64, 0u64, 0u64, 0u64, 0u64);
    for ep in 0..episodes {
        let reg = InvalidationRegistry::default();
        let ran: Arc<Mutex<Vec<u64>>> = Arc::new(Mutex::new(Vec::new()));
        let macro_like = ep % 2 == 0;
        let len = 6 + rng.below(30) as usize;
        let mut ops: Vec<String> = Vec::new();
        let mut outs: Vec<String> = Vec::new();
        let mut next_id = 1u64;
        // macro-like: a pending list of registration operations per name, issued in order per name
        let mut pending: Vec<Vec<String>> = Vec::new();
        if macro_like {
            for (i, n) in NAMES.iter().enumerate() {
                let (t, e, d) = (subset(&mut rng, &TAGS, 4), subset(&mut rng, &EVENTS, 3), subset(&mut rng, &DEPS, 2));
                let mut l = Vec::new();
                if !(t.is_empty() && e.is_empty() && d.is_empty()) {
                    l.push(format!("reg {} {}/{}/{}", n, t.join(","), e.join(","), d.join(",")));
                    l.push(format!("cb {} {}", n, i + 1));
                }
                l.push(format!("cond {} {}", n, 100 + i + 1));
                l.reverse();
                pending.push(l);
            }
        }
        let mut registered_tags: Vec<String> = Vec::new();
        for _ in 0..len {
            let op: String = if macro_like && rng.chance(5, 10) && pending.iter().any(|l| !l.is_empty()) {
                let mut i = rng.below(pending.len() as u64) as usize;
                while pending[i].is_empty() {
                    i = (i + 1) % pending.len();
                }
                pending[i].pop().unwrap()
            } else if !macro_like && rng.chance(4, 10) {
                match rng.below(10) {
                    0..=4 => {
                        let n = rng.pick(&NAMES);
                        format!(
                            "reg {} {}/{}/{}",
                            n,
                            subset(&mut rng, &TAGS, 4).join(","),
                            subset(&mut rng, &EVENTS, 3).join(","),
                            subset(&mut rng, &DEPS, 2).join(",")
                        )
                    }
                    5..=7 => {
                        next_id += 1;
                        format!("cb {} {}", rng.pick(&NAMES), next_id)
                    }
                    _ => {
                        next_id += 1;
                        format!("cond {} {}", rng.pick(&NAMES), next_id)
                    }
                }
            } else {
                match rng.below(20) {
                    0..=4 => format!("tag {}", if rng.chance(1, 8) { "nothing" } else { rng.pick(&TAGS) }),
                    5..=7 => format!("event {}", if rng.chance(1, 8) { "nothing" } else { rng.pick(&EVENTS) }),
                    8..=10 => format!("dep {}", if rng.chance(1, 8) { "nothing" } else { rng.pick(&DEPS) }),
                    11..=12 => format!("name {}", if rng.chance(1, 8) { "nothing" } else { rng.pick(&NAMES) }),
                    13..=14 => format!("with {}", if rng.chance(1, 8) { "nothing" } else { rng.pick(&NAMES) }),
                    15 => "allwith".to_string(),
                    16 => format!("gtag {}", rng.pick(&TAGS)),
                    17 => format!("gevent {}", rng.pick(&EVENTS)),
                    18 => format!("gdep {}", rng.pick(&DEPS)),
                    _ => {
                        if !macro_like && rng.chance(1, 3) {
                            "clear".to_string()
                        } else {
                            format!("tag {}", rng.pick(&TAGS))
                        }
                    }
                }
            };
            ran.lock().unwrap().clear();
            let p: Vec<&str> = op.split(' ').collect();
            let ids = |ran: &Arc<Mutex<Vec<u64>>>| {
                let mut v = ran.lock().unwrap().clone();
                v.sort();
                v.iter().map(|x| x.to_string()).collect::<Vec<_>>().join(",")
            };
            let names = |mut v: Vec<String>| {
                v.sort();
                v.join(",")
            };
            let o: String = match p[0] {
                "reg" => {
                    let m: Vec<&str> = p[2].split('/').collect();
                    let l = |s: &str| -> Vec<String> { if s.is_empty() { vec![] } else { s.split(',').map(|x| x.to_string()).collect() } };
                    let (t, e, d) = (l(m[0]), l(m[1]), l(m[2]));
                    if registered_tags.contains(&p[1].to_string()) {
                        n_rereg += 1;
                    }
                    registered_tags.push(p[1].to_string());
                    reg.register(p[1], InvalidationMetadata::new(t, e, d));
                    "u".to_string()
                }
                "cb" => {
                    let id: u64 = p[2].parse().unwrap();
                    let r = ran.clone();
                    reg.register_callback(p[1], move || r.lock().unwrap().push(id));
                    "u".to_string()
                }
                "cond" => {
                    let id: u64 = p[2].parse().unwrap();
                    let r = ran.clone();
                    reg.register_invalidation_callback(p[1], move |check: &dyn Fn(&str) -> bool| {
                        // the callback consults the predicate it is handed (as the generated ones do)
                        let _ = check("k0");
                        r.lock().unwrap().push(id)
                    });
                    "u".to_string()
                }
                "tag" | "event" | "dep" => {
                    let n = match p[0] {
                        "tag" => reg.invalidate_by_tag(p[1]),
                        "event" => reg.invalidate_by_event(p[1]),
                        _ => reg.invalidate_by_dependency(p[1]),
                    };
                    n_group += 1;
                    if n > 0 {
                        n_group_hit += 1;
                    }
                    if n > 1 {
                        n_shared += 1;
                    }
                    format!("c{}:{}", n, ids(&ran))
                }
                "name" => format!("f{}:{}", if reg.invalidate_cache(p[1]) { 1 } else { 0 }, ids(&ran)),
                "with" => format!("f{}:{}", if reg.invalidate_with(p[1], |_k| true) { 1 } else { 0 }, ids(&ran)),
                "allwith" => format!("c{}:{}", reg.invalidate_all_with(|_n, _k| false), ids(&ran)),
                "gtag" => format!("n:{}", names(reg.get_caches_by_tag(p[1]))),
                "gevent" => format!("n:{}", names(reg.get_caches_by_event(p[1]))),
                "gdep" => format!("n:{}", names(reg.get_dependent_caches(p[1]))),
                "clear" => {
                    n_clear += 1;
                    registered_tags.clear();
                    reg.clear();
                    "u".to_string()
                }
                _ => unreachable!(),
            };
            n_ops += 1;
            ops.push(op);
            outs.push(o);
        }
        writeln!(out, "G|{}|{}", ops.join(";"), outs.join(";")).unwrap();
    }
    writeln!(
        out,
        "#STAT operations={} group-invalidations={} group-invalidations-with-listeners={} shared-listeners={} re-registrations={} registry-clears={}",
        n_ops, n_group, n_group_hit, n_shared, n_rereg, n_clear
    )
    .unwrap();
}
